"""S1 driver / recorder: runs one real provider under a script of environment actions and records
the trace vocabulary of specs/Trace_ULProvider.tla.

Abstract frames (what the peer sends) are dicts {k, f, pdvs, len, grey}; concretise() turns them into
bytes with wire_ref (independent of the library).  User items are library PDU objects / generators
built here (that is the public API the user side really uses).
"""
from __future__ import annotations

import struct

from . import wire_ref as W
from . import cmdset
from .common import Machinery
from .simnet import Env, FakeSocket, Stepped, Hang, timer_state, pdu, fsm

VERIF_UID = b'1.2.840.10008.1.1'
TS_IMPL = b'1.2.840.10008.1.2'
APP_CTX = b'1.2.840.10008.3.1.1.1'


# ------------------------------------------------------------------ concretisation of peer frames

def assoc_items(ac=False, max_len=16384):
    items = [{'t': 0x10, 'name': APP_CTX}]
    if ac:
        items.append({'t': 0x21, 'id': 1, 'res': 0, 'sub': [{'t': 0x40, 'name': TS_IMPL}]})
    else:
        items.append({'t': 0x20, 'id': 1, 'sub': [{'t': 0x30, 'name': VERIF_UID}, {'t': 0x40, 'name': TS_IMPL}]})
    items.append({'t': 0x50, 'sub': [{'t': 0x51, 'max': max_len}, {'t': 0x52, 'uid': b'1.2.3.999'}]})
    return items


class MsgPlan(object):
    """A DIMSE message the peer sends: command bytes cut into nc fragments, data into nd fragments."""

    def __init__(self, m, nc=1, nd=0, ctx=1):
        self.m = m
        self.ctx = ctx
        cmd = cmdset.echo_rq(m) if nd == 0 else cmdset.store_rq(m)
        data = bytes((m * 7 + i) % 251 for i in range(max(nd, 1) * 5 + 3)) if nd else b''
        self.pdvs = []     # list of (flavour, value bytes)
        for i, chunk in enumerate(_split(cmd, nc)):
            last = (i == nc - 1)
            fl = ('C0' if nd == 0 else 'C1') if last else 'Cn'
            self.pdvs.append((fl, bytes([3 if last else 1]) + chunk))
        for i, chunk in enumerate(_split(data, nd)):
            last = (i == nd - 1)
            self.pdvs.append(('Dl' if last else 'Dn', bytes([2 if last else 0]) + chunk))


def _split(b, n):
    if n <= 0:
        return []
    size = max(1, (len(b) + n - 1) // n)
    parts = [b[i:i + size] for i in range(0, len(b), size)]
    while len(parts) < n:
        # split the longest part further
        j = max(range(len(parts)), key=lambda x: len(parts[x]))
        p = parts[j]
        if len(p) < 2:
            break
        parts[j:j + 1] = [p[:len(p) // 2], p[len(p) // 2:]]
    return parts


def frame(kind, f=(), pdvs=(), grey=False, raw=None):
    """Abstract frame + its bytes.  pdvs: list of (flavour, m, value bytes, ctx)."""
    f = list(f)
    if raw is not None:
        b = raw
    elif kind == 'RQ':
        b = W.enc_pdu({'t': 1, 'called': b'ANY-SCP', 'calling': b'PEER', 'items': assoc_items(False)})
    elif kind == 'AC':
        b = W.enc_pdu({'t': 2, 'called': b'ANY-SCP', 'calling': b'PEER', 'items': assoc_items(True)})
    elif kind == 'RJ':
        b = W.enc_pdu({'t': 3, 'result': f[0], 'source': f[1], 'reason': f[2]})
    elif kind == 'RLRQ':
        b = W.enc_pdu({'t': 5})
    elif kind == 'RLRP':
        b = W.enc_pdu({'t': 6})
    elif kind == 'AB':
        b = W.enc_pdu({'t': 7, 'source': f[0], 'reason': f[1]})
    elif kind == 'PD':
        b = W.enc_pdu({'t': 4, 'pdvs': [{'ctx': c, 'val': v} for (_, _, v, c) in pdvs]})
    elif kind == 'UNK0':
        b = struct.pack('>BBI', 0x08, 0, 0)            # header only: an unrecognised type with an empty body
        kind = 'UNK'
    elif kind == 'UNK':
        b = struct.pack('>BBI', 0x2A, 0, 4) + b'\1\2\3\4'
    else:
        raise Machinery('unknown frame kind %r' % kind)
    rec = {'k': kind, 'f': f, 'pdvs': [{'fl': fl, 'm': m} for (fl, m, _, _) in pdvs], 'len': len(b), 'grey': grey}
    return rec, b


# ------------------------------------------------------------------ user items

def user_pdu(kind, f=()):
    f = list(f)
    if kind == 'RQ':
        p = pdu.AAssociateRqPDU(called_ae_title='PEER', calling_ae_title='US', variable_items=[
            pdu.ApplicationContextItem(APP_CTX.decode()),
            pdu.PresentationContextItemRQ(1, pdu.AbstractSyntaxSubItem(VERIF_UID.decode()),
                                          [pdu.TransferSyntaxSubItem(TS_IMPL.decode())]),
            pdu.UserInformationItem([_maxlen(16384)])])
        p.called_presentation_address = ('peer.example', 104)
    elif kind == 'AC':
        p = pdu.AAssociateAcPDU(called_ae_title='US', calling_ae_title='PEER', variable_items=[
            pdu.ApplicationContextItem(APP_CTX.decode()),
            pdu.PresentationContextItemAC(1, 0, pdu.TransferSyntaxSubItem(TS_IMPL.decode())),
            pdu.UserInformationItem([_maxlen(16384)])])
    elif kind == 'RJ':
        p = pdu.AAssociateRjPDU(f[0], f[1], f[2])
    elif kind == 'RLRQ':
        p = pdu.AReleaseRqPDU()
    elif kind == 'RLRP':
        p = pdu.AReleaseRpPDU()
    elif kind == 'AB':
        p = pdu.AAbortPDU(source=f[0], reason_diag=f[1])
    else:
        raise Machinery('unknown user kind %r' % kind)
    return p


def _maxlen(n):
    from pynetdicom2 import userdataitems
    return userdataitems.MaximumLengthSubItem(n)


class FragGen(object):
    """The generator of P-DATA-TF fragments a user puts on the queue (what DIMSEMessage.encode returns)."""

    def __init__(self, fids, ctx=1, fail_at=None):
        self.fids = list(fids)
        self.yielded = 0
        self.fail_at = fail_at       # the source of the message fails when fragment number fail_at (0-based) is asked for
        self.failed = False

    def __iter__(self):
        return self

    def __next__(self):
        if self.fail_at is not None and self.yielded >= self.fail_at:
            self.failed = True
            if self.fail_at == 0 and not self.fids:
                raise StopIteration          # a message of which nothing can be produced at all (no fragment fits)
            raise IOError('the source of the outgoing message cannot be read')
        if self.yielded >= len(self.fids):
            raise StopIteration
        fid = self.fids[self.yielded]
        self.yielded += 1
        last = self.yielded == len(self.fids)
        return pdu.PDataTfPDU([pdu.PresentationDataValueItem(1, bytes([2 if last else 0]) + struct.pack('>I', fid))])

    next = __next__

    def remaining(self):
        if self.failed:
            return 0
        if self.fail_at is not None:
            return self.fail_at + 1 - self.yielded      # the fragments before the failure and the failure itself
        return len(self.fids) - self.yielded


# ------------------------------------------------------------------ the run

class Run(object):
    def __init__(self, req, max_pdu_length=65536):
        self.req = req
        self.env = Env()
        self.env.__enter__()
        self.sock = None if req else FakeSocket('accepted')
        self.local_max = max_pdu_length
        self.p = Stepped(self.sock, max_pdu_length)
        self.trace = [{'ev': 'Start', 'req': bool(req)}]
        self.transit = bytearray()
        self.fin_pending = False
        self.gens = []
        self.died = None
        self.hung = None
        self.indications = []      # every object handed to the user, in order
        self.wire = []             # every PDU put on the wire (bytes), in order
        self.frames_sent = []
        self.iterations = 0

    def close(self):
        self.env.__exit__(None, None, None)

    # -- environment actions
    def _cur_sock(self):
        s = self.p.dul_socket
        if s is not None:
            self.sock = s
        return self.sock

    def peer_send(self, frames_with_bytes, limit=None):
        """The peer writes these PDUs back to back; with limit, only the first `limit` bytes are ever
        written (the peer dies in the middle): the frames that have started are declared, the last one
        never completes."""
        recs, blob = [], b''
        for r, b in frames_with_bytes:
            if limit is not None and len(blob) >= limit:
                break
            if r is not None:
                recs.append(r)
            blob += b
        if limit is not None:
            blob = blob[:limit]
        self.transit += blob
        self.frames_sent.extend(recs)
        self.trace.append({'ev': 'PeerSend', 'frames': recs, 'n': len(blob)})
        return len(blob)

    def arrive(self, n=None):
        if n is None:
            n = len(self.transit)
        n = min(n, len(self.transit))
        if n <= 0:
            return 0
        s = self._cur_sock()
        if s is None:
            raise Machinery('arrive with no socket')
        s.rx += self.transit[:n]
        del self.transit[:n]
        self.trace.append({'ev': 'Arrive', 'n': n})
        if self.fin_pending and not self.transit:
            s.peer_fin = True          # the FIN travels behind the data
        return n

    def peer_fin(self):
        s = self._cur_sock()
        self.fin_pending = True
        if not self.transit:
            s.peer_fin = True
        self.trace.append({'ev': 'PeerFin'})

    def peer_reset(self):
        s = self._cur_sock()
        s.peer_reset = True
        s.rx = bytearray()
        self.transit = bytearray()
        self.fin_pending = True
        self.trace.append({'ev': 'PeerReset'})

    def peer_deaf(self):
        self._cur_sock().write_dead = True
        self.trace.append({'ev': 'PeerDeaf'})

    def user_put(self, kind, f=(), obj=None):
        self.p.send(obj if obj is not None else user_pdu(kind, f))
        self.trace.append({'ev': 'UserPut', 'item': {'k': kind, 'f': list(f), 'pdvs': [], 'grey': False}})

    def user_gen(self, fids, fail_at=None):
        g = FragGen(fids, fail_at=fail_at)
        self.gens.append(g)
        self.p.send(g)
        frags = [{'k': 'PD', 'f': [fid], 'pdvs': [], 'grey': False} for fid in (fids if fail_at is None else fids[:fail_at])]
        if fail_at is not None:
            frags.append({'k': 'BAD', 'f': [], 'pdvs': [], 'grey': False})
        self.trace.append({'ev': 'UserPut', 'item': {'k': 'GEN', 'frags': frags}})

    def tick(self, expire=True):
        t = self.p.timer
        if expire:
            self.env.clock.now += t._max_seconds + 1.0
            self.trace.append({'ev': 'Tick'})
        else:
            # time passes WITHOUT reaching the ARTIM limit, however many times this is repeated
            dt = t._max_seconds / 4.0
            if t._start_time is not None:
                remaining = t._max_seconds - (self.env.clock.now - t._start_time)
                dt = max(0.0, min(dt, remaining / 2.0))
            self.env.clock.now += dt
            self.trace.append({'ev': 'Tock'})

    # -- one iteration of the real loop
    def iterate(self):
        p = self.p
        pre_evq = list(p.event)
        n_act = len(p.actions)
        sock_before = self._cur_sock()
        nlog = len(sock_before.recv_log) if sock_before else 0
        nsent = {id(s): len(s.sent) for s in self._all_socks()}
        nfail = sum(s.failed_sends for s in self._all_socks())
        try:
            exc = p.step()
        except Hang as h:
            self.hung = str(h)
            self.trace.append({'ev': 'Hang', 'why': str(h)})
            return 'hang'
        self.iterations += 1
        inds = p.drain_user()
        if exc is not None:
            self.died = exc
            self.indications.extend(inds)
            self.trace.append({'ev': 'Died', 'exc': type(exc).__name__, 'msg': str(exc)[:200],
                               'ind': [self._ind(i) for i in inds]})
            return 'died'
        acts = p.actions[n_act:]
        if len(acts) > 1:
            raise Machinery('more than one table action in one iteration')
        consumed = acts[0][0] + 1 if acts else 0
        post_evq = list(p.event)
        q = ([acts[0][0]] if acts else []) + post_evq
        sendfail = sum(s.failed_sends for s in self._all_socks()) > nfail
        if sendfail and q and q[-1] == 16:
            q = q[:-1]             # the transport-closed event raised by the failed write, not by the poll
        if q[:len(pre_evq)] != pre_evq:
            newevt = -1          # the FIFO was disturbed
        else:
            new = q[len(pre_evq):]
            newevt = (new[0] + 1) if len(new) == 1 else (0 if not new else -1)
        # reads
        rcv = False
        if sock_before is not None:
            for (_, got) in sock_before.recv_log[nlog:]:
                rcv = True
        cur = self._cur_sock()
        sent = []
        for s in self._all_socks():
            for b in s.sent[nsent.get(id(s), 0):]:
                pdus, rest = W.split_stream(b)
                if rest or not pdus:
                    sent.append({'k': 'GARBAGE', 'f': []})
                for one in pdus:
                    self.wire.append(one)
                    sent.append(self._wire(one))
        self.indications.extend(inds)
        if p.dul_socket is None:
            sk = 'none' if (cur is None or cur.closed) else 'leaked'
        else:
            sk = 'open' if not p.dul_socket.closed else 'closed-but-held'
        closed_now = bool(sock_before is not None and sock_before.closed) and not getattr(self, '_was_closed', False)
        if sock_before is not None and sock_before.closed:
            self._was_closed = True
        gen_left = 0
        if p.dimse_gen is not None:
            if not isinstance(p.dimse_gen, FragGen):
                raise Machinery('dimse_gen is not the harness generator')
            gen_left = p.dimse_gen.remaining()
        self.trace.append({
            'ev': 'Iter', 'rcv': rcv, 'newevt': newevt, 'evt': consumed,
            'st': p.state_machine.current_state + 1, 'sock': sk,
            'artim': timer_state(p, self.env.clock), 'evq': [e + 1 for e in post_evq],
            'raw': len(p.raw_pdu), 'uq': p.from_service_user.qsize(), 'gen': gen_left,
            'wire': sent, 'ind': [self._ind(i) for i in inds], 'closed': closed_now,
            'sendfail': sendfail})
        return 'ok'

    def _all_socks(self):
        out = []
        if self.sock is not None:
            out.append(self.sock)
        for s in self.env.sockets:
            if s is not self.sock:
                out.append(s)
        return out

    @staticmethod
    def _wire(b):
        k = W.kind_of(b)
        try:
            d = W.dec_pdu(b)
        except W.WireError:
            return {'k': 'MALFORMED', 'f': []}
        if k == 'RJ':
            return {'k': k, 'f': [d['result'], d['source'], d['reason']]}
        if k == 'AB':
            return {'k': k, 'f': [d['source'], d['reason']]}
        if k == 'PD':
            v = d['pdvs'][0]['val'] if d['pdvs'] else b''
            fid = struct.unpack('>I', v[1:5])[0] if len(v) == 5 else -1
            return {'k': k, 'f': [fid]}
        return {'k': k, 'f': []}

    @staticmethod
    def _ind(obj):
        if isinstance(obj, tuple):
            msg = obj[0]
            try:
                mid = int(msg.command_set[(0x0000, 0x0110)].value)
            except Exception:
                mid = -1
            return {'k': 'MSG', 'f': [mid]}
        t = getattr(obj, 'pdu_type', None)
        k = W.KIND.get(t, 'UNK')
        if k == 'RJ':
            return {'k': k, 'f': [obj.result, obj.source, obj.reason_diag]}
        if k == 'AB':
            return {'k': k, 'f': [obj.source, obj.reason_diag]}
        return {'k': k, 'f': []}

    def end(self, home):
        self.trace.append({'ev': 'End', 'home': bool(home)})

    # -- helpers for scripts
    def state(self):
        return self.p.state_machine.current_state + 1

    def quiescent(self):
        s = self._cur_sock()
        if self.p.dul_socket is not None and self.state() not in (4, 13) and W.split_stream(bytes(self.p.raw_pdu))[0]:
            return False          # a whole PDU is still buffered
        return (not self.p.event and self.p.from_service_user.empty() and
                (self.p.dimse_gen is None or self.p.dimse_gen.remaining() == 0) and
                (s is None or not s.readable() or self.p.dul_socket is None) and
                not (timer_state(self.p, self.env.clock) == 'exp'))

    def settle(self, limit=50):
        """Iterate until nothing is left to do (or the loop dies / hangs)."""
        for _ in range(limit):
            if self.quiescent() and not (self.state() == 4):
                return 'ok'
            r = self.iterate()
            if r != 'ok':
                return r
        return 'busy'
