"""Common part of C01 and C02: TLC enumerates the structure universe of specs/Wire.tla (certifying
the reference on every structure), the library is exercised on every structure, and TLC judges the
outcome (specs/Trace_Wire.tla)."""
from __future__ import annotations

import json
import random

from . import tlc, wirelib as L, wire_ref as W
from .common import Machinery, seed

MODES_QUICK = ['ui2', 'pc', 'order', 'hdr', 'small']
MODES_THOROUGH = ['ui3', 'pc', 'order', 'hdr', 'small']


def enumerate_universe(tier):
    """Run TLC on Wire.tla for every mode: RoundTrip, TotalLength, LengthsExact on every structure.
    Returns (list of (mode, structure, bytes), stats)."""
    vecs = []
    stats = {'states': 0, 'transitions': 0, 'modes': {}}
    for mode in (MODES_QUICK if tier == 'quick' else MODES_THOROUGH):
        r = tlc.run('Wire', 'Wire_%s.cfg' % mode, workers=1, timeout=3000)
        if not r.ok:
            raise Machinery('Wire.tla (%s): the reference itself is wrong: %s %s' % (mode, r.violated, r.errors[:2]))
        vals = tlc.printed_values(r.out)
        if len(vals) != r.distinct:
            raise Machinery('Wire.tla (%s): %d vectors printed for %d states' % (mode, len(vals), r.distinct))
        for v in vals:
            vecs.append((mode, L.fix_empty(L.norm(v['s'])), bytes(v['b'])))
        stats['states'] += r.distinct
        stats['transitions'] += r.generated
        stats['modes'][mode] = r.distinct
    return vecs, stats


def exercise(s, ref_bytes=None, incremental=False):
    """Run the library on structure s.  Returns the case record for Trace_Wire (JSON-able) plus notes.
    incremental: the PDU object is built step by step through its public attributes instead of in one call."""
    ref = W.enc_pdu(s)
    case = {'s': L.to_tla_json(s), 'ref': list(ref), 'lib': [], 'libOk': False, 'tl': False,
            'dec': L.to_tla_json(s), 'decOk': False, 'rt': L.to_tla_json(s), 'rtOk': False, 're': False}
    notes = {}
    if incremental:
        notes['built'] = 'step by step' if incremental is True else 'decoded, then extended'
    try:
        if incremental == 'extended':
            try:
                x = L.to_lib_extended(s, W.enc_pdu)
            except Exception as exc:      # noqa - the library cannot decode the shorter PDU: that is the other case's finding
                x = None
            if x is None:
                return None, notes
        else:
            x = L.to_lib_incremental(s) if incremental else L.to_lib(s)
    except ValueError as exc:
        x = None
        notes['inexpressible'] = str(exc)
    if x is not None:
        try:
            b = x.encode()
            case['lib'] = list(b)
            case['libOk'] = True
            tl = x.total_length() if callable(x.total_length) else x.total_length
            case['tl'] = (tl == len(b))
            try:
                y = L.LIB_CLASS[s['t']].decode(b)
                case['rt'] = L.to_tla_json(L.from_lib(y))
                case['rtOk'] = True
                d = L.deep_eq(x, y)
                if d:
                    notes['deep'] = d
                case['re'] = (y.encode() == b) and d is None
            except Exception as exc:       # noqa
                notes['rt_exc'] = '%s: %s' % (type(exc).__name__, exc)
        except Exception as exc:           # noqa
            notes['enc_exc'] = '%s: %s' % (type(exc).__name__, exc)
    else:
        # structures the public classes cannot express are only decoded (C02 b)
        case['libOk'] = True
        case['lib'] = list(ref)
        case['tl'] = True
        case['rtOk'] = True
        case['re'] = True
    try:
        y2 = L.LIB_CLASS[s['t']].decode(ref)
        case['dec'] = L.to_tla_json(L.from_lib(y2))
        case['decOk'] = True
    except Exception as exc:               # noqa
        notes['dec_exc'] = '%s: %s' % (type(exc).__name__, exc)
    return case, notes


C01_CLAUSES = {'library-encode-raised', 'round-trip-decode-raised', 'round-trip-differs', 're-encoding-differs'}
C02_CLAUSES = {'library-bytes-differ-from-standard-layout', 'total_length-differs-from-bytes-emitted',
               'library-decode-of-standard-encoding-raised', 'library-decode-of-standard-encoding-differs'}


def kinds_of(s):
    """Signature used to identify a failing input class: PDU type + ordered item / sub-item kinds."""
    if s['t'] in (1, 2):
        sig = []
        for it in s['items']:
            if it['t'] == 0x50:
                sig.append('50[' + ','.join('%02x' % x['t'] for x in it['sub']) + ']')
            else:
                sig.append('%02x' % it['t'])
        return 'pdu%d:' % s['t'] + ' '.join(sig)
    return 'pdu%d' % s['t']


def judge(cases):
    res, stats = tlc.validate_traces('Trace_Wire', 'Trace_Wire.cfg', [[c] for c in cases], chunk=4000)
    return [(r['bad_inv'] or []) if r['reached'] == 1 else ['not-judged'] for r in res], stats


def run(prop, tier, v):
    """Shared driver.  prop in ('C01','C02') selects which clauses are this property's."""
    mine = C01_CLAUSES if prop == 'C01' else C02_CLAUSES
    vecs, ustats = enumerate_universe(tier)
    rng = random.Random(seed())
    cases, metas = [], []
    for k, (mode, s, b) in enumerate(vecs):
        c, notes = exercise(s)
        if bytes(c['ref']) != b:
            raise Machinery('wire_ref.py disagrees with TLC Enc on %s' % kinds_of(s))
        cases.append(c)
        metas.append(('tlc:' + mode, s, notes))
        if s['t'] in (1, 2, 3, 4, 7) and (tier == 'thorough' or k % 4 == 0):
            c, notes = exercise(s, incremental=True)
            cases.append(c)
            metas.append(('tlc:' + mode + ':incremental', s, notes))
        if s['t'] in (1, 2, 4) and (tier == 'thorough' or k % 4 == 2):
            c, notes = exercise(s, incremental='extended')
            if c is not None:
                cases.append(c)
                metas.append(('tlc:' + mode + ':extended', s, notes))
    n_rand = 3000 if tier == 'quick' else 40000
    for i in range(n_rand):
        if i % 400 == 0:
            # an encode that FAILS part-way (a presentation context id that does not fit its byte) must leave nothing
            # behind: the structures that follow are judged as always
            try:
                L.pdu.PDataTfPDU([L.pdu.PresentationDataValueItem(1, b'\x03ab'), L.pdu.PresentationDataValueItem(300, b'\x03cd')]).encode()
            except Exception:      # noqa
                pass
        s = L.rand_pdu(rng)
        inc = 'extended' if i % 7 == 3 else (i % 3 == 2)
        c, notes = exercise(s, incremental=inc)
        if c is None:
            c, notes = exercise(s)
            inc = False
        cases.append(c)
        metas.append(('random:' + ('extended' if inc == 'extended' else 'incremental') if inc else 'random', s, notes))
    verdicts, tstats = judge(cases)
    n_mine = 0
    other = {}
    for (src, s, notes), clauses in zip(metas, verdicts):
        for clause in clauses:
            if clause in ('reference-encoder-differs-from-Enc', 'Dec(Enc(s))#s', 'not-judged'):
                raise Machinery('reference not certified on %s: %s' % (kinds_of(s), clause))
            if clause not in mine:
                other[clause] = other.get(clause, 0) + 1
                continue
            n_mine += 1
            key = {'site': 'pdu/userdataitems', 'clause': clause, 'sig': kinds_of(s)}
            v.report(key, '%s on %s (%s) %s' % (clause, kinds_of(s), src, json.dumps(notes)[:300]),
                     replay={'structure': L.to_tla_json(s)})
    # several threads encode and decode at once (one provider thread per association does): every result must be the one
    # the reference gives for that structure
    import threading
    pool = [s for _, s, _ in metas if s['t'] in (1, 2, 4)][:400]
    refs = [W.enc_pdu(s) for s in pool]
    wrong = []

    def worker(k):
        r = random.Random(k)
        for _ in range(600 if tier == 'quick' else 6000):
            j = r.randrange(len(pool))
            try:
                b = L.to_lib(pool[j]).encode()
                back = L.from_lib(L.LIB_CLASS[pool[j]['t']].decode(refs[j]))
            except ValueError:
                continue
            except Exception as exc:      # noqa
                wrong.append((j, 'raised %s: %s' % (type(exc).__name__, exc)))
                continue
            if L.strip_titles(L.from_lib(L.LIB_CLASS[pool[j]['t']].decode(b))) != L.strip_titles(back) or (pool[j]['t'] == 4 and b != refs[j]):
                wrong.append((j, 'bytes or decoded structure differ from the sequential result'))
            if len(wrong) > 5:
                return
    import sys as _sys
    old = _sys.getswitchinterval()
    _sys.setswitchinterval(1e-6)
    try:
        ths = [threading.Thread(target=worker, args=(k,)) for k in range(4)]
        for t in ths:
            t.start()
        for t in ths:
            t.join()
    finally:
        _sys.setswitchinterval(old)
    for j, why in wrong[:3]:
        v.report({'site': 'pdu/userdataitems', 'clause': 'library-bytes-differ-from-standard-layout' if prop == 'C02' else 'round-trip-differs', 'sig': 'concurrent'},
                 'with four threads encoding / decoding at once: %s on %s' % (why, kinds_of(pool[j])), replay={'structure': L.to_tla_json(pool[j])})
    # large payloads: beyond what TLC's sequences handle comfortably; judged with the certified reference
    big = 0
    for i in range(60 if tier == 'quick' else 600):
        s = L.rand_pdu(rng, big=True)
        if s['t'] != 4:
            continue
        big += 1
        ref = W.enc_pdu(s)
        problems = []
        try:
            x = L.to_lib(s)
            b = x.encode()
        except Exception as exc:      # noqa
            x, b = None, None
            if prop == 'C01':
                problems.append('library-encode-raised')
        y = None
        try:
            y = L.LIB_CLASS[4].decode(ref)
        except Exception as exc:      # noqa
            if prop == 'C02':
                problems.append('library-decode-of-standard-encoding-raised')
        if prop == 'C02':
            if b is not None and b != ref:
                problems.append('library-bytes-differ-from-standard-layout')
            if b is not None and x.total_length() != len(b):
                problems.append('total_length-differs-from-bytes-emitted')
            if b is None:
                problems.append('library-bytes-differ-from-standard-layout')
            if y is not None and L.from_lib(y) != s:
                problems.append('library-decode-of-standard-encoding-differs')
        elif b is not None:
            try:
                y1 = L.LIB_CLASS[4].decode(b)
                if L.deep_eq(x, y1) or y1.encode() != b:
                    problems.append('round-trip-differs')
            except Exception as exc:      # noqa
                problems.append('round-trip-decode-raised')
        for pclause in problems:
            v.report({'site': 'pdu/userdataitems', 'clause': pclause, 'sig': 'pdu4-large'},
                     '%s on a P-DATA-TF with PDV sizes %s' % (pclause, [len(p['val']) for p in s['pdvs']]))
    cov = {
        'states': ustats['states'], 'transitions': ustats['transitions'],
        'traces_validated_against_impl': len(cases),
        'universe_modes': ustats['modes'], 'random_structures': n_rand, 'large_pdata_structures': big,
        'judged_by_tlc': len(cases), 'judge_states': tstats['states'],
        'violations_of_this_property': n_mine, 'clauses_belonging_to_the_sibling_property': other,
        'samples': [{'structure': L.to_tla_json(metas[i][1]), 'lib_bytes_hex': bytes(cases[i]['lib']).hex()[:160]} for i in (1, len(vecs) // 2, len(vecs) + 1)],
        'exhaustive': False,
    }
    return cov
